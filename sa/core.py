"""Core of the static analysis engine: loader, resolver, constant evaluator,
small AST utilities.  Pure stdlib.  Never imports or executes repository code.
"""
import ast
import os
import re
import hashlib


class AnalysisError(Exception):
    """A vanished anchor, an uninterpretable anchored table, or an internal
    problem of the analysis.  Reported as ANALYSIS-ERROR, exit 2."""


def norm(node):
    """Normalised source text of a node (position independent)."""
    if isinstance(node, str):
        return node
    try:
        return ast.unparse(node)
    except Exception:  # pragma: no cover
        return ast.dump(node)


def short(node, n=110):
    s = " ".join(norm(node).split())
    return s if len(s) <= n else s[: n - 3] + "..."


class Module:
    def __init__(self, rel, source):
        self.rel = rel
        self.source = source
        self.tree = ast.parse(source, filename=rel)
        for parent in ast.walk(self.tree):
            for child in ast.iter_child_nodes(parent):
                child._parent = parent
        self.tree._parent = None
        self.modname = rel[:-3].replace("/", ".")
        if self.modname.endswith(".__init__"):
            self.modname = self.modname[: -len(".__init__")]
            self.is_pkg = True
        else:
            self.is_pkg = False
        self._defs = None
        self._imports = None

    # -- definitions ---------------------------------------------------
    @property
    def defs(self):
        """qualname -> FunctionDef/ClassDef for module-level and class-level
        definitions (one level of nesting for classes, plus nested funcs as
        Outer.<locals>.inner is not needed)."""
        if self._defs is None:
            d = {}

            def visit(body, prefix):
                for st in body:
                    if isinstance(st, (ast.FunctionDef, ast.AsyncFunctionDef)):
                        d.setdefault(prefix + st.name, st)
                        st._qualname = prefix + st.name
                        st._module = self
                    elif isinstance(st, ast.ClassDef):
                        d.setdefault(prefix + st.name, st)
                        st._qualname = prefix + st.name
                        st._module = self
                        visit(st.body, prefix + st.name + ".")
                    elif isinstance(st, (ast.If, ast.Try)):
                        # conditional definitions at module level
                        for sub in ast.iter_child_nodes(st):
                            if isinstance(sub, (ast.FunctionDef, ast.ClassDef)):
                                visit([sub], prefix)

            visit(self.tree.body, "")
            self._defs = d
        return self._defs

    @property
    def imports(self):
        """local name -> ('module', modname) | ('name', modname, attr)"""
        if self._imports is None:
            imp = {}
            for st in ast.walk(self.tree):
                if isinstance(st, ast.Import):
                    for a in st.names:
                        if a.asname:
                            imp[a.asname] = ("module", a.name)
                        else:
                            imp[a.name.split(".")[0]] = ("module", a.name.split(".")[0])
                elif isinstance(st, ast.ImportFrom):
                    base = st.module or ""
                    if st.level:
                        parts = self.modname.split(".")
                        if not self.is_pkg:
                            parts = parts[:-1]
                        up = st.level - 1
                        if up:
                            parts = parts[:-up]
                        base = ".".join(parts + ([st.module] if st.module else []))
                    for a in st.names:
                        imp[a.asname or a.name] = ("name", base, a.name)
            self._imports = imp
        return self._imports

    def assignments(self, name):
        """Module-level assignments `name = value` (value nodes)."""
        out = []
        for st in self.tree.body:
            if isinstance(st, ast.Assign):
                for t in st.targets:
                    if isinstance(t, ast.Name) and t.id == name:
                        out.append(st.value)
            elif isinstance(st, ast.AnnAssign) and isinstance(st.target, ast.Name):
                if st.target.id == name and st.value is not None:
                    out.append(st.value)
        return out


class _Modules(dict):
    """rel -> Module; a module's parameter / local names are mapped back to the names the rules expect
    (sa/localnames.py) the first time it is handed out"""

    @staticmethod
    def _ready(m):
        if getattr(m, "_needs_names", False):
            m._needs_names = False
            from . import localnames
            m.renamed_functions = localnames.normalise_module(m)
        return m

    def __getitem__(self, k):
        return self._ready(dict.__getitem__(self, k))

    def get(self, k, default=None):
        m = dict.get(self, k, default)
        return self._ready(m) if m is not default else default

    def values(self):
        return [self._ready(m) for m in dict.values(self)]

    def items(self):
        return [(k, self._ready(m)) for k, m in dict.items(self)]


class Project:
    """All python modules under <root>/ppci, parsed; optional overlay."""

    def __init__(self, root, overlay=None, subdir="ppci", base=None, normalise_names=True):
        self.root = root
        self.overlay = dict(overlay or {})
        self.modules = _Modules()
        self.by_modname = _Modules()
        self.parse_errors = []
        basedir = os.path.join(root, subdir)
        if not os.path.isdir(basedir):
            raise AnalysisError("no %s under %s" % (subdir, root))
        rels = []
        for dp, dn, fn in os.walk(basedir):
            dn[:] = sorted(d for d in dn if d != "__pycache__")
            for f in sorted(fn):
                if f.endswith(".py"):
                    rels.append(os.path.relpath(os.path.join(dp, f), root))
        for rel in self.overlay:
            if rel not in rels:
                rels.append(rel)
        h = hashlib.sha256()
        for rel in rels:
            if rel in self.overlay:
                src = self.overlay[rel]
            else:
                with open(os.path.join(root, rel), encoding="utf-8") as fh:
                    src = fh.read()
            h.update(rel.encode())
            h.update(src.encode())
            bm = dict.get(base.modules, rel) if base is not None else None
            if bm is not None and bm.source == src:
                dict.__setitem__(self.modules, rel, bm)
                dict.__setitem__(self.by_modname, bm.modname, bm)
                continue
            try:
                m = Module(rel, src)
            except SyntaxError as e:
                self.parse_errors.append((rel, str(e)))
                continue
            m._needs_names = bool(normalise_names)
            self.modules[rel] = m
            self.by_modname[m.modname] = m
        self.digest = h.hexdigest()[:16]
        self.n_functions = sum(
            1
            for m in dict.values(self.modules)
            for n in ast.walk(m.tree)
            if isinstance(n, (ast.FunctionDef, ast.AsyncFunctionDef))
        )
        self._classes = None

    # -- anchors ------------------------------------------------------
    def module(self, rel):
        m = self.modules.get(rel)
        if m is None:
            raise AnalysisError("anchor vanished: module %s" % rel)
        return m

    def get(self, rel, qualname, kinds=(ast.FunctionDef, ast.ClassDef), optional=False):
        m = self.module(rel)
        d = m.defs.get(qualname)
        if d is None and "." in qualname:
            # method may be inherited: look up through bases
            cname, meth = qualname.rsplit(".", 1)
            c = m.defs.get(cname)
            if isinstance(c, ast.ClassDef):
                d = self.find_method(c, meth)
        if d is None or not isinstance(d, kinds):
            if optional:
                return None
            raise AnalysisError("anchor vanished: %s:%s" % (rel, qualname))
        return d

    def func(self, rel, qualname, optional=False):
        return self.get(rel, qualname, (ast.FunctionDef,), optional)

    def cls(self, rel, qualname, optional=False):
        return self.get(rel, qualname, (ast.ClassDef,), optional)

    # -- class hierarchy ----------------------------------------------
    @property
    def classes(self):
        """(rel, qualname) -> ClassDef for all classes of the project"""
        if self._classes is None:
            c = {}
            for m in self.modules.values():
                for q, d in m.defs.items():
                    if isinstance(d, ast.ClassDef):
                        c[(m.rel, q)] = d
            self._classes = c
        return self._classes

    def resolve_name(self, module, name, depth=0):
        """Resolve a (possibly dotted) name used in `module` to a definition
        node (ClassDef/FunctionDef) or a Module, else None."""
        if depth > 8:
            return None
        parts = name.split(".")
        head = parts[0]
        target = None
        if head in module.defs:
            target = module.defs[head]
        elif head in module.imports:
            imp = module.imports[head]
            if imp[0] == "module":
                target = self.by_modname.get(imp[1])
                # `import a.b.c` binds a; walk the rest as submodules
                if len(parts) > 1:
                    cur = imp[1]
                    i = 1
                    while i < len(parts) and (cur + "." + parts[i]) in self.by_modname:
                        cur = cur + "." + parts[i]
                        i += 1
                    target = self.by_modname.get(cur)
                    parts = [head] + parts[i:]
            else:
                sub = self.by_modname.get(imp[1] + "." + imp[2])
                if sub is not None:
                    target = sub
                else:
                    src = self.by_modname.get(imp[1])
                    if src is not None:
                        target = self.resolve_name(src, imp[2], depth + 1)
        else:
            # module-level alias  X = Y
            vals = module.assignments(head)
            if len(vals) == 1 and isinstance(vals[0], (ast.Name, ast.Attribute)):
                ch = attr_chain(vals[0])
                if ch and ch != head:
                    target = self.resolve_name(module, ch, depth + 1)
        for p in parts[1:]:
            if target is None:
                return None
            if isinstance(target, Module):
                target = self.resolve_name(target, p, depth + 1)
            elif isinstance(target, ast.ClassDef):
                t2 = target._module.defs.get(target._qualname + "." + p)
                if t2 is None:
                    t2 = self.find_method(target, p)
                target = t2
            else:
                return None
        return target

    def bases(self, cdef):
        out = []
        for b in cdef.bases:
            ch = attr_chain(b)
            if not ch:
                continue
            r = self.resolve_name(cdef._module, ch)
            if isinstance(r, ast.ClassDef):
                out.append(r)
        return out

    def mro(self, cdef):
        seen, order, todo = set(), [], [cdef]
        while todo:
            c = todo.pop(0)
            if id(c) in seen:
                continue
            seen.add(id(c))
            order.append(c)
            todo.extend(self.bases(c))
        return order

    def find_method(self, cdef, name):
        for c in self.mro(cdef):
            for st in c.body:
                if isinstance(st, ast.FunctionDef) and st.name == name:
                    if not hasattr(st, "_qualname"):
                        st._qualname = c._qualname + "." + name
                        st._module = c._module
                    return st
        return None

    def class_attr(self, cdef, name):
        """class-level assignment value (through MRO)"""
        for c in self.mro(cdef):
            for st in c.body:
                if isinstance(st, ast.Assign):
                    for t in st.targets:
                        if isinstance(t, ast.Name) and t.id == name:
                            return st.value
                elif isinstance(st, ast.AnnAssign) and isinstance(st.target, ast.Name):
                    if st.target.id == name and st.value is not None:
                        return st.value
        return None

    def is_subclass(self, cdef, base):
        return any(c is base for c in self.mro(cdef))

    def subclasses(self, base, strict=True):
        out = []
        for c in self.classes.values():
            if c is base and strict:
                continue
            if self.is_subclass(c, base):
                out.append(c)
        return out

    def site(self, node):
        """'ppci/x.py:Qual.name' of the innermost enclosing def of node"""
        n = node
        while n is not None:
            if isinstance(n, (ast.FunctionDef, ast.ClassDef)) and hasattr(n, "_qualname"):
                return "%s:%s" % (n._module.rel, n._qualname)
            n = getattr(n, "_parent", None)
        return "?"


# ---------------------------------------------------------------------
# small AST helpers


def attr_chain(node):
    """a.b.c -> 'a.b.c' for Name/Attribute chains, else None"""
    parts = []
    while isinstance(node, ast.Attribute):
        parts.append(node.attr)
        node = node.value
    if isinstance(node, ast.Name):
        parts.append(node.id)
        return ".".join(reversed(parts))
    return None


def call_name(call):
    """dotted name of the callee of a Call (or None)"""
    if isinstance(call, ast.Call):
        return attr_chain(call.func)
    return None


def last_name(call):
    """last component of the callee (method/function name)"""
    if isinstance(call, ast.Call):
        f = call.func
        if isinstance(f, ast.Attribute):
            return f.attr
        if isinstance(f, ast.Name):
            return f.id
    return None


def walk_no_nested(node, include_self=True):
    """ast.walk that does not descend into nested function/class/lambda
    definitions (their bodies are other scopes)."""
    todo = [node] if include_self else list(ast.iter_child_nodes(node))
    first = True
    while todo:
        n = todo.pop()
        yield n
        if not first and isinstance(n, (ast.FunctionDef, ast.AsyncFunctionDef, ast.ClassDef, ast.Lambda)):
            continue
        first = False
        todo.extend(reversed(list(ast.iter_child_nodes(n))))


def calls_in(node, name=None, nested=False):
    it = ast.walk(node) if nested else walk_no_nested(node)
    for n in it:
        if isinstance(n, ast.Call):
            if name is None or last_name(n) == name or call_name(n) == name:
                yield n


def names_in(node):
    return {n.id for n in ast.walk(node) if isinstance(n, ast.Name)}


def attrs_in(node):
    """all attribute names read/written anywhere in node"""
    return {n.attr for n in ast.walk(node) if isinstance(n, ast.Attribute)}


def consts_in(node, typ=None):
    out = []
    for n in ast.walk(node):
        if isinstance(n, ast.Constant) and (typ is None or type(n.value) is typ):
            out.append(n.value)
    return out


def enclosing(node, kinds):
    n = getattr(node, "_parent", None)
    while n is not None and not isinstance(n, kinds):
        n = getattr(n, "_parent", None)
    return n


def enclosing_stmt(node):
    n = node
    while n is not None and not isinstance(n, ast.stmt):
        n = getattr(n, "_parent", None)
    return n


def enclosing_func(node):
    return enclosing(node, (ast.FunctionDef, ast.AsyncFunctionDef, ast.Lambda))


def is_ancestor(a, n):
    while n is not None:
        if n is a:
            return True
        n = getattr(n, "_parent", None)
    return False


def params_of(fn):
    a = fn.args
    return [x.arg for x in a.posonlyargs + a.args + a.kwonlyargs] + (
        [a.vararg.arg] if a.vararg else []
    ) + ([a.kwarg.arg] if a.kwarg else [])


def stmts_of(fn):
    """all statements in fn (not nested defs), in source order"""
    out = [n for n in walk_no_nested(fn, include_self=True) if isinstance(n, ast.stmt) and n is not fn]
    out.sort(key=lambda s: (s.lineno, s.col_offset))
    return out


def assigned_values(fn, name):
    """value nodes assigned to local `name` in fn (simple Name targets,
    tuple unpack gives the whole RHS wrapped as ('unpack', i, rhs))"""
    out = []
    for n in walk_no_nested(fn):
        if isinstance(n, ast.Assign):
            for t in n.targets:
                if isinstance(t, ast.Name) and t.id == name:
                    out.append(n.value)
                elif isinstance(t, (ast.Tuple, ast.List)):
                    for i, e in enumerate(t.elts):
                        if isinstance(e, ast.Name) and e.id == name:
                            if isinstance(n.value, (ast.Tuple, ast.List)) and len(n.value.elts) == len(t.elts):
                                out.append(n.value.elts[i])
                            else:
                                out.append(n.value)
        elif isinstance(n, ast.AnnAssign) and isinstance(n.target, ast.Name) and n.target.id == name and n.value:
            out.append(n.value)
        elif isinstance(n, ast.AugAssign) and isinstance(n.target, ast.Name) and n.target.id == name:
            out.append(n)
        elif isinstance(n, (ast.For, ast.comprehension)):
            t = n.target
            for e in ast.walk(t):
                if isinstance(e, ast.Name) and e.id == name:
                    out.append(n.iter)
        elif isinstance(n, ast.NamedExpr) and n.target.id == name:
            out.append(n.value)
        elif isinstance(n, ast.withitem) and n.optional_vars is not None:
            for e in ast.walk(n.optional_vars):
                if isinstance(e, ast.Name) and e.id == name:
                    out.append(n.context_expr)
    return out


def derives(fn, expr, project=None, depth=2, _seen=None, follow_objects=True):
    """Flow-insensitive closure: the set of *atoms* expr is computed from
    inside fn.  Atoms: 'param:<name>', 'attr:<name>' (every attribute name
    read), 'call:<lastname>', 'const:<repr>', 'name:<global name>'.
    Follows local assignments; follows `self.method(...)`/function calls
    into resolved callees' return expressions up to `depth`."""
    atoms = set()
    seen = _seen if _seen is not None else set()
    params = set(params_of(fn)) if isinstance(fn, (ast.FunctionDef, ast.AsyncFunctionDef)) else set()
    todo = [expr]
    while todo:
        e = todo.pop()
        for n in ast.walk(e):
            if isinstance(n, ast.Attribute):
                atoms.add("attr:" + n.attr)
                if project is not None and depth > 0 and isinstance(n.value, ast.Name):
                    c = infer_class(project, fn, n.value.id)
                    if c is not None:
                        m = project.find_method(c, n.attr)
                        if m is not None and id(m) not in seen and any(attr_chain(d) == "property" for d in m.decorator_list):
                            seen.add(id(m))
                            for r in walk_no_nested(m):
                                if isinstance(r, ast.Return) and r.value is not None:
                                    sub = derives(m, r.value, project, depth - 1, seen, follow_objects)
                                    atoms |= {a for a in sub if not a.startswith("param:")}
            elif isinstance(n, ast.Call):
                ln = last_name(n)
                if ln:
                    atoms.add("call:" + ln)
                if project is not None and depth > 0:
                    callee = resolve_call(project, fn, n)
                    if callee is not None and id(callee) not in seen:
                        seen.add(id(callee))
                        for r in walk_no_nested(callee):
                            if isinstance(r, ast.Return) and r.value is not None:
                                sub = derives(callee, r.value, project, depth - 1, seen)
                                atoms |= {a for a in sub if not a.startswith("param:")}
                            elif isinstance(r, (ast.Yield,)) and r.value is not None:
                                sub = derives(callee, r.value, project, depth - 1, seen)
                                atoms |= {a for a in sub if not a.startswith("param:")}
            elif isinstance(n, ast.Constant):
                if isinstance(n.value, (int, str)) and not isinstance(n.value, bool):
                    atoms.add("const:%r" % (n.value,))
            elif isinstance(n, ast.Name):
                key = n.id
                if key in seen:
                    continue
                if not follow_objects and isinstance(getattr(n, "_parent", None), ast.Attribute) and n._parent.value is n:
                    atoms.add("obj:" + key)
                    continue
                vals = assigned_values(fn, key) if not isinstance(fn, ast.Lambda) else []
                if key in params:
                    atoms.add("param:" + key)
                if vals:
                    seen.add(key)
                    for v in vals:
                        todo.append(v.value if isinstance(v, ast.AugAssign) else v)
                elif key not in params:
                    atoms.add("name:" + key)
    return atoms


def infer_class(project, fn, name):
    """ClassDef of local `name` when it is `self` or assigned from a
    constructor call of a project class inside fn, else None"""
    if isinstance(fn, ast.Lambda):
        return None
    if name in ("self", "cls"):
        c = enclosing(fn, (ast.ClassDef,))
        return c if c is not None and hasattr(c, "_module") else None
    mod = getattr(fn, "_module", None)
    if mod is None:
        p = fn
        while p is not None and not hasattr(p, "_module"):
            p = getattr(p, "_parent", None)
        mod = getattr(p, "_module", None)
    if mod is None:
        return None
    for v in assigned_values(fn, name):
        if isinstance(v, ast.Call):
            ch = attr_chain(v.func)
            if ch:
                r = project.resolve_name(mod, ch)
                if isinstance(r, ast.ClassDef):
                    return r
    return None


def resolve_call(project, fn, call):
    """Resolve the callee of `call` occurring in function `fn`:
    self.m(...) through the class MRO, Name(...) through the module."""
    f = call.func
    mod = getattr(fn, "_module", None)
    if mod is None:
        p = fn
        while p is not None and not hasattr(p, "_module"):
            p = getattr(p, "_parent", None)
        if p is None:
            return None
        mod = p._module
    if isinstance(f, ast.Attribute) and isinstance(f.value, ast.Name) and f.value.id in ("self", "cls"):
        c = enclosing(fn, (ast.ClassDef,)) if not isinstance(fn, ast.ClassDef) else fn
        if c is not None and hasattr(c, "_module"):
            return project.find_method(c, f.attr)
        return None
    ch = attr_chain(f)
    if ch is None:
        return None
    r = project.resolve_name(mod, ch)
    if isinstance(r, ast.FunctionDef):
        return r
    if isinstance(r, ast.ClassDef):
        return project.find_method(r, "__init__")
    return None


# ---------------------------------------------------------------------
# constant evaluator (never calls repository code)


class NotConst(Exception):
    pass


_BINOPS = {
    ast.Add: lambda a, b: a + b,
    ast.Sub: lambda a, b: a - b,
    ast.Mult: lambda a, b: a * b,
    ast.LShift: lambda a, b: a << b,
    ast.RShift: lambda a, b: a >> b,
    ast.BitOr: lambda a, b: a | b,
    ast.BitAnd: lambda a, b: a & b,
    ast.BitXor: lambda a, b: a ^ b,
    ast.FloorDiv: lambda a, b: a // b,
    ast.Mod: lambda a, b: a % b,
    ast.Pow: lambda a, b: a ** b,
}


def const_eval(node, module=None, project=None, env=None, depth=0):
    """Evaluate literal-ish expressions.  Raises NotConst."""
    if depth > 12:
        raise NotConst("depth")
    ce = lambda n: const_eval(n, module, project, env, depth + 1)
    if isinstance(node, ast.Constant):
        return node.value
    if isinstance(node, ast.Tuple):
        return tuple(ce(e) for e in node.elts)
    if isinstance(node, ast.List):
        return [ce(e) for e in node.elts]
    if isinstance(node, ast.Set):
        return {ce(e) for e in node.elts}
    if isinstance(node, ast.Dict):
        d = {}
        for k, v in zip(node.keys, node.values):
            if k is None:
                d.update(ce(v))
            else:
                d[ce(k)] = ce(v)
        return d
    if isinstance(node, ast.UnaryOp):
        v = ce(node.operand)
        if isinstance(node.op, ast.USub):
            return -v
        if isinstance(node.op, ast.Invert):
            return ~v
        if isinstance(node.op, ast.UAdd):
            return +v
        if isinstance(node.op, ast.Not):
            return not v
    if isinstance(node, ast.BinOp):
        op = _BINOPS.get(type(node.op))
        if op is None:
            raise NotConst(norm(node))
        a, b = ce(node.left), ce(node.right)
        if isinstance(node.op, (ast.LShift, ast.Pow)) and isinstance(b, int) and b > 4096:
            raise NotConst("big")
        try:
            return op(a, b)
        except Exception:
            raise NotConst(norm(node))
    if isinstance(node, ast.JoinedStr):
        out = ""
        for v in node.values:
            if isinstance(v, ast.Constant):
                out += str(v.value)
            else:
                out += str(ce(v.value))
        return out
    if isinstance(node, ast.Name):
        if env and node.id in env:
            return env[node.id]
        if node.id in ("True", "False", "None"):
            return {"True": True, "False": False, "None": None}[node.id]
        if module is not None:
            vals = module.assignments(node.id)
            if len(vals) == 1:
                return const_eval(vals[0], module, project, None, depth + 1)
            if project is not None and node.id in module.imports:
                imp = module.imports[node.id]
                if imp[0] == "name":
                    src = project.by_modname.get(imp[1])
                    if src is not None:
                        return const_eval(ast.Name(id=imp[2]), src, project, None, depth + 1)
        raise NotConst(node.id)
    if isinstance(node, ast.Call):
        cn = call_name(node)
        if cn in ("dict",) and not node.args:
            return {k.arg: ce(k.value) for k in node.keywords}
        if cn in ("tuple", "list", "set", "frozenset", "sorted") and len(node.args) == 1:
            v = ce(node.args[0])
            return {"tuple": tuple, "list": list, "set": set, "frozenset": frozenset, "sorted": sorted}[cn](v)
        if cn == "range":
            return list(range(*[ce(a) for a in node.args]))
        if cn == "len" and len(node.args) == 1:
            return len(ce(node.args[0]))
    if isinstance(node, ast.Subscript):
        v = ce(node.value)
        try:
            if isinstance(node.slice, ast.Slice):
                lo = ce(node.slice.lower) if node.slice.lower else None
                hi = ce(node.slice.upper) if node.slice.upper else None
                return v[lo:hi]
            return v[ce(node.slice)]
        except NotConst:
            raise
        except Exception:
            raise NotConst(norm(node))
    if isinstance(node, ast.Attribute) and module is not None and project is not None:
        ch = attr_chain(node)
        if ch:
            head, _, rest = ch.partition(".")
            if head in module.imports and rest and "." not in rest:
                imp = module.imports[head]
                src = None
                if imp[0] == "module":
                    src = project.by_modname.get(imp[1])
                else:
                    src = project.by_modname.get(imp[1] + "." + imp[2])
                if src is not None:
                    return const_eval(ast.Name(id=rest), src, project, None, depth + 1)
    if isinstance(node, (ast.ListComp, ast.SetComp, ast.GeneratorExp, ast.DictComp)):
        return _eval_comp(node, module, project, env, depth)
    raise NotConst(norm(node))


def _eval_comp(node, module, project, env, depth):
    results = []

    def rec(gi, e):
        if gi == len(node.generators):
            if isinstance(node, ast.DictComp):
                results.append((const_eval(node.key, module, project, e, depth + 1), const_eval(node.value, module, project, e, depth + 1)))
            else:
                results.append(const_eval(node.elt, module, project, e, depth + 1))
            return
        g = node.generators[gi]
        it = const_eval(g.iter, module, project, e, depth + 1)
        if isinstance(it, dict):
            it = list(it)
        for item in it:
            e2 = dict(e)
            _bind(g.target, item, e2)
            if all(const_eval(c, module, project, e2, depth + 1) for c in g.ifs):
                rec(gi + 1, e2)

    rec(0, dict(env or {}))
    if isinstance(node, ast.DictComp):
        return dict(results)
    if isinstance(node, ast.SetComp):
        return set(results)
    return results


def _bind(target, value, env):
    if isinstance(target, ast.Name):
        env[target.id] = value
    elif isinstance(target, (ast.Tuple, ast.List)):
        vals = list(value)
        if len(vals) != len(target.elts):
            raise NotConst("unpack")
        for t, v in zip(target.elts, vals):
            _bind(t, v, env)
    else:
        raise NotConst("bind")


def try_const(node, module=None, project=None, env=None, default=None):
    try:
        return const_eval(node, module, project, env)
    except NotConst:
        return default
    except RecursionError:
        return default


# ---------------------------------------------------------------------
# dispatch / table extraction helpers


def isinstance_tests(fn, var=None):
    """Class names tested by `isinstance(<var>, X)` / `isinstance(<var>, (X, Y))`
    anywhere in fn.  Returns list of (dotted class name, Call node)."""
    out = []
    for c in calls_in(fn, "isinstance"):
        if len(c.args) != 2:
            continue
        if var is not None and norm(c.args[0]) != var:
            continue
        t = c.args[1]
        elts = t.elts if isinstance(t, (ast.Tuple, ast.List)) else [t]
        for e in elts:
            ch = attr_chain(e)
            if ch:
                out.append((ch, c))
    return out


def dict_items(node):
    """For a Dict literal: list of (key node, value node)."""
    if isinstance(node, ast.Dict):
        return [(k, v) for k, v in zip(node.keys, node.values) if k is not None]
    return []


def subscript_key_stores(fn, var):
    """string keys K for `var["K"] = ...` in fn"""
    out = {}
    for n in walk_no_nested(fn):
        if isinstance(n, ast.Assign):
            for t in n.targets:
                if isinstance(t, ast.Subscript) and norm(t.value) == var and isinstance(t.slice, ast.Constant):
                    out[t.slice.value] = n
    return out


def subscript_key_loads(fn, var=None):
    """string keys K for `var["K"]` loads and var.get("K")"""
    out = {}
    for n in walk_no_nested(fn):
        if isinstance(n, ast.Subscript) and isinstance(n.ctx, ast.Load) and isinstance(n.slice, ast.Constant):
            if var is None or norm(n.value) == var:
                if isinstance(n.slice.value, str):
                    out.setdefault(n.slice.value, n)
        elif isinstance(n, ast.Call) and last_name(n) in ("get", "pop") and n.args and isinstance(n.args[0], ast.Constant):
            if var is None or norm(n.func.value) == var:
                if isinstance(n.args[0].value, str):
                    out.setdefault(n.args[0].value, n)
    return out


def init_fields(project, cdef, own_only=False):
    """names of attributes assigned as self.X = ... in __init__ (through MRO)"""
    fields = {}
    classes = [cdef] if own_only else project.mro(cdef)
    for c in classes:
        for st in c.body:
            if isinstance(st, ast.FunctionDef) and st.name == "__init__":
                for n in walk_no_nested(st):
                    if isinstance(n, (ast.Assign, ast.AnnAssign, ast.AugAssign)):
                        tg = n.targets if isinstance(n, ast.Assign) else [n.target]
                        for t in tg:
                            if isinstance(t, ast.Attribute) and isinstance(t.value, ast.Name) and t.value.id == "self":
                                fields.setdefault(t.attr, n)
    return fields


def compare_ops(node):
    """list of (left, op class name, right) for all Compare nodes inside"""
    out = []
    for n in ast.walk(node):
        if isinstance(n, ast.Compare):
            left = n.left
            for op, right in zip(n.ops, n.comparators):
                out.append((left, type(op).__name__, right))
                left = right
    return out


def raises_in(node, exc_names=None):
    for n in walk_no_nested(node):
        if isinstance(n, ast.Raise):
            if exc_names is None:
                yield n
            else:
                e = n.exc
                nm = call_name(e) if isinstance(e, ast.Call) else attr_chain(e) if e is not None else None
                if nm and nm.split(".")[-1] in exc_names:
                    yield n
