"""Self-test of the rules of one property: mutants (source edits that break a
clause and must be reported, naming the rule) and refactor twins (behaviour
preserving edits that must stay silent).  All edits are in-memory overlays of
the tree under analysis; nothing is written to disk and nothing is executed."""
import ast
import importlib
import os

from .core import AnalysisError, Project
from .report import Ctx


def _apply(root, m, cache):
    """returns overlay dict or None when the edit does not apply (stale)"""
    overlay = {}
    edits = m.get("edits") or [m]
    for e in edits:
        rel = e["file"]
        if rel in overlay:
            src = overlay[rel]
        else:
            if rel not in cache:
                with open(os.path.join(root, rel), encoding="utf-8") as fh:
                    cache[rel] = fh.read()
            src = cache[rel]
        n = src.count(e["find"])
        want = e.get("count", 1)
        if n != want:
            return None
        new = src.replace(e["find"], e["replace"])
        try:
            ast.parse(new)
        except SyntaxError as ex:
            raise AnalysisError("self-test edit %s does not parse: %s" % (m["name"], ex))
        overlay[rel] = new
    return overlay


def run(prop, root):
    try:
        mm = importlib.import_module("sa.mutants." + prop.lower())
    except ModuleNotFoundError:
        return {"ok": True, "summary": "selftest: no mutant catalogue for %s" % prop, "mutants": 0, "twins": 0}
    from .related import run_rules

    class rules:   # the property's own rules plus the shared families
        @staticmethod
        def run(c):
            run_rules(prop, c)
    base_project = Project(root)
    base = Ctx(prop, base_project, quiet=True)
    rules.run(base)
    base_keys = {Ctx.key(f) for f in base.findings}
    cache = {}
    res = {"ok": True, "mutants": 0, "twins": 0, "killed": 0, "silent": 0, "stale": [], "failures": [], "details": []}
    for m in getattr(mm, "MUTANTS", []) + [dict(t, twin=True) for t in getattr(mm, "TWINS", [])]:
        twin = m.get("twin", False)
        overlay = _apply(root, m, cache)
        if overlay is None:
            res["stale"].append(m["name"])
            continue
        res["twins" if twin else "mutants"] += 1
        try:
            ctx = Ctx(prop, Project(root, overlay=overlay, base=base_project), quiet=True)
            rules.run(ctx)
            ctx.check_floors()
            new = [f for f in ctx.findings if Ctx.key(f) not in base_keys]
            err = None
        except AnalysisError as e:
            new, err = [], str(e)
        if twin:
            if new or err:
                res["ok"] = False
                res["failures"].append("twin %s raised an alarm: %s" % (m["name"], err or [Ctx.key(f) for f in new][:2]))
            else:
                res["silent"] += 1
        else:
            exp = m.get("expect")
            hit = [f for f in new if exp is None or f["rule"] == exp]
            if hit or (err and m.get("expect_error")):
                res["killed"] += 1
                res["details"].append("%s -> %s" % (m["name"], hit[0]["rule"] + " @ " + hit[0]["site"] if hit else "analysis-error"))
            else:
                res["ok"] = False
                res["failures"].append("mutant %s not reported (expected rule %s; new findings %s; error %s)"
                                       % (m["name"], exp, [f["rule"] for f in new], err))
    res["summary"] = "selftest %s: %d/%d mutants reported, %d/%d twins silent, %d stale%s" % (
        prop, res["killed"], res["mutants"], res["silent"], res["twins"], len(res["stale"]),
        "" if res["ok"] else "  FAILURES: " + "; ".join(res["failures"]))
    return res
