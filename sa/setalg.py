"""Set-algebra expressions decided by truth table.

A Python expression built from `|`, `&`, `-`, `^`, `.union()`,
`.intersection()`, `.difference()`, `set(x)`, `set()` over opaque operands is
a boolean function of "element is a member of operand i".  Two such
expressions denote the same set for all operand values iff their truth tables
agree, so `equivalent()` is exact for this fragment and indifferent to
operand order, parenthesisation, re-spelling through methods, augmented
assignment or temporaries.  `run_straight_line()` executes a straight-line
statement list symbolically (assignment, augmented assignment, `.update()`,
`.difference_update()`, `.intersection_update()`), so that the *order* of
updates of several tracked variables is part of what is compared.

Nothing of the repository is executed."""
import ast
import itertools

from .core import norm


class NotSetAlgebra(Exception):
    pass


_BIN = {ast.BitOr: "or", ast.BitAnd: "and", ast.Sub: "diff", ast.BitXor: "xor"}
_METH = {"union": "or", "intersection": "and", "difference": "diff", "symmetric_difference": "xor"}
_UPD = {"update": "or", "intersection_update": "and", "difference_update": "diff", "symmetric_difference_update": "xor"}
_WRAP = ("set", "frozenset", "OrderedSet", "list", "tuple", "sorted", "_ordered")


def term(e, env=None):
    """expression -> nested tuple term; names/attributes bound in env are substituted"""
    env = env or {}
    if isinstance(e, ast.BinOp) and type(e.op) in _BIN:
        return (_BIN[type(e.op)], term(e.left, env), term(e.right, env))
    if isinstance(e, ast.Call):
        f = e.func
        if isinstance(f, ast.Name) and f.id in _WRAP and not e.keywords:
            if not e.args:
                return ("empty",)
            if len(e.args) == 1:
                return term(e.args[0], env)
        if isinstance(f, ast.Attribute) and f.attr in _METH and not e.keywords:
            t = term(f.value, env)
            for a in e.args:
                if isinstance(a, ast.Starred):
                    raise NotSetAlgebra(norm(e))
                t = (_METH[f.attr], t, term(a, env))
            return t
        if isinstance(f, ast.Attribute) and f.attr == "copy" and not e.args:
            return term(f.value, env)
        raise NotSetAlgebra(norm(e))
    if isinstance(e, (ast.Name, ast.Attribute, ast.Subscript)):
        k = norm(e)
        if k in env:
            return env[k]
        return ("atom", k)
    if isinstance(e, (ast.Set, ast.List, ast.Tuple)) and not e.elts:
        return ("empty",)
    raise NotSetAlgebra(norm(e))


def atoms(t, acc=None):
    acc = set() if acc is None else acc
    if t[0] == "atom":
        acc.add(t[1])
    else:
        for s in t[1:]:
            if isinstance(s, tuple):
                atoms(s, acc)
    return acc


def _ev(t, a):
    k = t[0]
    if k == "atom":
        return a[t[1]]
    if k == "empty":
        return False
    x, y = _ev(t[1], a), _ev(t[2], a)
    if k == "or":
        return x or y
    if k == "and":
        return x and y
    if k == "diff":
        return x and not y
    return x != y


def equivalent(t1, t2):
    names = sorted(atoms(t1) | atoms(t2))
    if len(names) > 12:
        raise NotSetAlgebra("too many operands")
    for bits in itertools.product((False, True), repeat=len(names)):
        a = dict(zip(names, bits))
        if _ev(t1, a) != _ev(t2, a):
            return False
    return True


def show(t):
    k = t[0]
    if k == "atom":
        return t[1]
    if k == "empty":
        return "{}"
    return "(%s %s %s)" % (show(t[1]), {"or": "|", "and": "&", "diff": "-", "xor": "^"}[k], show(t[2]))


def run_straight_line(stmts, env=None, tracked=None):
    """symbolically execute assignments of a straight-line statement list.
    `tracked` (set of normalised target texts or None = all simple targets):
    only those targets are bound.  Statements that are not set updates of a
    tracked target are skipped when they do not mention a tracked target as a
    store; raises NotSetAlgebra for a tracked store it cannot interpret."""
    env = dict(env or {})

    def is_tracked(k):
        return tracked is None or k in tracked

    for st in stmts:
        if isinstance(st, ast.Assign) and len(st.targets) == 1:
            k = norm(st.targets[0])
            if is_tracked(k):
                try:
                    env[k] = term(st.value, env)
                except NotSetAlgebra:
                    if tracked is None:
                        env.pop(k, None)
                        continue
                    raise
            continue
        if isinstance(st, ast.AugAssign) and type(st.op) in _BIN:
            k = norm(st.target)
            if is_tracked(k):
                env[k] = (_BIN[type(st.op)], env.get(k, ("atom", k)), term(st.value, env))
            continue
        if isinstance(st, ast.Expr) and isinstance(st.value, ast.Call) and isinstance(st.value.func, ast.Attribute):
            f = st.value.func
            k = norm(f.value)
            if f.attr in _UPD and is_tracked(k):
                t = env.get(k, ("atom", k))
                for a in st.value.args:
                    t = (_UPD[f.attr], t, term(a, env))
                env[k] = t
                continue
            if is_tracked(k) and tracked is not None and f.attr in ("add", "discard", "remove", "clear", "pop"):
                raise NotSetAlgebra(norm(st))
            continue
        if tracked is not None:
            for n in ast.walk(st):
                if isinstance(n, (ast.Attribute, ast.Name, ast.Subscript)) and isinstance(getattr(n, "ctx", None), ast.Store) and norm(n) in tracked:
                    raise NotSetAlgebra(norm(st))
    return env


def parse(text, env=None):
    return term(ast.parse(text, mode="eval").body, env)
