"""Shared shape checks used by several properties."""
import ast

from .core import norm, walk_no_nested, call_name
from . import sym


def check_wrap_function(ctx, rid, fn, site):
    """`fn(value, <bits or ty>, [signed])` must be the two's complement wrap:
    base = 1 << bits; value reduced mod base; negative iff signed and bit
    bits-1 set; negative result = value - base."""
    env = sym.single_assign_env(fn)
    # what denotes the width?
    bits = None
    if "bits" in env:
        bits = sym.affine(env["bits"], {})
    elif any(a.arg == "bits" for a in fn.args.args):
        bits = sym.atom("bits")
    if bits is None:
        ctx.undecided(rid, site, "width expression not found")
        return
    one = sym.const(1)
    base_ok = "base" in env and sym.pow2_exp(env["base"], env) == bits
    ctx.ob(rid, site, "base == 1 << bits", base_ok, construct="base", detail=norm(env.get("base", "?")))
    nodes = list(walk_no_nested(fn))
    red = any(isinstance(n, ast.AugAssign) and isinstance(n.op, ast.Mod) and norm(n.target) == "value" and sym.pow2_exp(n.value, env) == bits for n in nodes) or \
        any(isinstance(n, ast.BinOp) and isinstance(n.op, ast.Mod) and norm(n.left) == "value" and sym.pow2_exp(n.right, env) == bits for n in nodes) or \
        any(isinstance(n, ast.BinOp) and isinstance(n.op, ast.BitAnd) and sym.mask_width(n.right, env) == bits for n in nodes) or \
        any(isinstance(n, ast.AugAssign) and isinstance(n.op, ast.BitAnd) and sym.mask_width(n.value, env) == bits for n in nodes)
    ctx.ob(rid, site, "value is reduced modulo 1 << bits", red, construct="reduce")
    tests = [(n, n.test, [r.value for r in n.body if isinstance(r, ast.Return)]) for n in nodes if isinstance(n, ast.If)]
    tests += [(n, n.test, [n.body]) for n in nodes if isinstance(n, ast.IfExp)]
    found = False
    for node, test, negvals in tests:
        thr = None
        conj = sym.flatten_bool(test)
        for t in conj:
            if isinstance(t, ast.Compare) and len(t.ops) == 1:
                l, op, r = t.left, t.ops[0], t.comparators[0]
                if isinstance(l, ast.Call) and call_name(l) == "value.bit_length" and isinstance(op, ast.Eq):
                    thr = sym.affine(r, env) == bits
                elif norm(l) == "value" and isinstance(op, ast.GtE):
                    thr = sym.pow2_exp(r, env) == bits - one
                elif norm(l) == "value" and isinstance(op, ast.Gt):
                    thr = sym.mask_width(r, env) == bits - one
            elif isinstance(t, ast.BinOp) and isinstance(t.op, ast.BitAnd):
                thr = any(sym.pow2_exp(p, env) == bits - one for p in (t.left, t.right))
        if thr is None:
            continue
        found = True
        has_signed = any(norm(t) in ("signed", "ty.signed") or sym.inline(t, env) is not t and norm(sym.inline(t, env)).endswith("signed") for t in conj)
        ctx.ob(rid, site, "negative iff signed and bit (bits-1) is set", thr and has_signed, construct="sign-threshold", node=node, detail=norm(test))
        okr = False
        for v in negvals:
            if isinstance(v, ast.BinOp) and isinstance(v.op, ast.Sub) and norm(v.left) == "value":
                okr = norm(v.right) == "base" and base_ok or sym.pow2_exp(v.right, env) == bits
        ctx.ob(rid, site, "negative result is value - (1 << bits)", okr, construct="neg-result", node=node)
    if not found:
        ctx.undecided(rid, site, "sign threshold test not recognised")
