"""Shared shape checks used by several properties."""
import ast

from .core import norm, walk_no_nested, call_name
from . import sym


def check_wrap_function(ctx, rid, fn, site):
    """`fn(value, <bits or ty>, [signed])` must be the two's complement wrap:
    base = 1 << bits; value reduced mod base; negative iff signed and bit
    bits-1 set; negative result = value - base."""
    env = sym.single_assign_env(fn)
    # what denotes the width?
    bits = None
    if "bits" in env:
        bits = sym.affine(env["bits"], {})
    elif any(a.arg == "bits" for a in fn.args.args):
        bits = sym.atom("bits")
    if bits is None:
        ctx.undecided(rid, site, "width expression not found")
        return
    one = sym.const(1)
    base_ok = "base" in env and sym.pow2_exp(env["base"], env) == bits
    ctx.ob(rid, site, "base == 1 << bits", base_ok, construct="base", detail=norm(env.get("base", "?")))
    nodes = list(walk_no_nested(fn))
    red = any(isinstance(n, ast.AugAssign) and isinstance(n.op, ast.Mod) and norm(n.target) == "value" and sym.pow2_exp(n.value, env) == bits for n in nodes) or \
        any(isinstance(n, ast.BinOp) and isinstance(n.op, ast.Mod) and norm(n.left) == "value" and sym.pow2_exp(n.right, env) == bits for n in nodes) or \
        any(isinstance(n, ast.BinOp) and isinstance(n.op, ast.BitAnd) and sym.mask_width(n.right, env) == bits for n in nodes) or \
        any(isinstance(n, ast.AugAssign) and isinstance(n.op, ast.BitAnd) and sym.mask_width(n.value, env) == bits for n in nodes)
    ctx.ob(rid, site, "value is reduced modulo 1 << bits", red, construct="reduce")
    tests = [(n, n.test, [r.value for r in n.body if isinstance(r, ast.Return)]) for n in nodes if isinstance(n, ast.If)]
    tests += [(n, n.test, [n.body]) for n in nodes if isinstance(n, ast.IfExp)]
    found = False
    for node, test, negvals in tests:
        thr = None
        conj = sym.flatten_bool(test)
        for t in conj:
            if isinstance(t, ast.Compare) and len(t.ops) == 1:
                l, op, r = t.left, t.ops[0], t.comparators[0]
                if isinstance(l, ast.Call) and call_name(l) == "value.bit_length" and isinstance(op, ast.Eq):
                    thr = sym.affine(r, env) == bits
                elif norm(l) == "value" and isinstance(op, ast.GtE):
                    thr = sym.pow2_exp(r, env) == bits - one
                elif norm(l) == "value" and isinstance(op, ast.Gt):
                    thr = sym.mask_width(r, env) == bits - one
            elif isinstance(t, ast.BinOp) and isinstance(t.op, ast.BitAnd):
                thr = any(sym.pow2_exp(p, env) == bits - one for p in (t.left, t.right))
        if thr is None:
            continue
        found = True
        has_signed = any(norm(t) in ("signed", "ty.signed") or sym.inline(t, env) is not t and norm(sym.inline(t, env)).endswith("signed") for t in conj)
        ctx.ob(rid, site, "negative iff signed and bit (bits-1) is set", thr and has_signed, construct="sign-threshold", node=node, detail=norm(test))
        okr = False
        for v in negvals:
            if isinstance(v, ast.BinOp) and isinstance(v.op, ast.Sub) and norm(v.left) == "value":
                okr = norm(v.right) == "base" and base_ok or sym.pow2_exp(v.right, env) == bits
        ctx.ob(rid, site, "negative result is value - (1 << bits)", okr, construct="neg-result", node=node)
    if not found:
        ctx.undecided(rid, site, "sign threshold test not recognised")


def get_or_create(fn, ctor_pred):
    """Get-or-create idiom around a registry dict.  Finds the statement that constructs the new object
    (`v = Ctor(...)` with ctor_pred(call)), and reports:
      created-var, registry text, key text,
      guarded   : creation happens only when `key not in registry` (or through registry.setdefault whose RESULT is used),
      stored    : the new object is stored into registry[key] on that path,
      reused    : on the path where the key is present the value comes from registry[key],
    Returns dict or None when no construction site is found."""
    import ast
    from .core import norm, walk_no_nested, last_name
    from . import sym
    mk = [n for n in walk_no_nested(fn) if isinstance(n, ast.Assign) and isinstance(n.value, ast.Call) and ctor_pred(n.value) and isinstance(n.targets[0], ast.Name)]
    sd = [n for n in walk_no_nested(fn) if isinstance(n, ast.Assign) and isinstance(n.value, ast.Call) and last_name(n.value) == "setdefault" and len(n.value.args) == 2
          and isinstance(n.value.args[1], ast.Call) and ctor_pred(n.value.args[1])]
    if sd and not mk:
        # v = registry.setdefault(key, Ctor(...)): atomic get-or-create whose result is used
        n = sd[0]
        return {"var": norm(n.targets[0]), "registry": norm(n.value.func.value), "key": norm(n.value.args[0]), "guarded": True, "stored": True, "reused": True, "node": n, "form": "setdefault-result"}
    if len(mk) != 1:
        return None
    n = mk[0]
    v = n.targets[0].id
    body = n._parent
    siblings = getattr(body, "body", []) if n in getattr(body, "body", []) else getattr(body, "orelse", [])
    stores = [s for s in siblings if isinstance(s, ast.Assign) and isinstance(s.targets[0], ast.Subscript) and norm(s.value) == v]
    res = {"var": v, "node": n, "form": "if-absent", "registry": None, "key": None, "guarded": False, "stored": bool(stores), "reused": False}
    if stores:
        res["registry"], res["key"] = norm(stores[0].targets[0].value), norm(stores[0].targets[0].slice)
    else:
        # setdefault used only for its side effect: registry.setdefault(key, v)
        for s in siblings:
            if isinstance(s, ast.Expr) and isinstance(s.value, ast.Call) and last_name(s.value) == "setdefault" and len(s.value.args) == 2 and norm(s.value.args[1]) == v:
                res["registry"], res["key"] = norm(s.value.func.value), norm(s.value.args[0])
                res["form"] = "setdefault-discarded"
    if res["registry"]:
        cj = [(" ".join(norm(e).split()), pol) for e, pol in sym.conjuncts(n, fn, {})]
        want = "%s not in %s" % (res["key"], res["registry"])
        res["guarded"] = any(pol and t == want for t, pol in cj) or any((not pol) and t == "%s in %s" % (res["key"], res["registry"]) for t, pol in cj)
        look = "%s[%s]" % (res["registry"], res["key"])
        res["reused"] = any(isinstance(a, ast.Assign) and norm(a.targets[0]) == v and norm(a.value) in (look, "%s.get(%s)" % (res["registry"], res["key"])) for a in walk_no_nested(fn))
    return res
