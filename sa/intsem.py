"""Integer-semantics analysis of the callables registered in the repository's
operator tables: which Python arithmetic they apply, on operands of which
proven sign, and whether the result is normalised to a fixed width.

Target semantics (IR, C, wasm _s ops): division truncates toward zero and
the remainder takes the sign of the dividend.  Python's // and % floor.  The
two agree exactly when both operands are non-negative, so `//`/`%` applied to
anything that is not proved >= 0 (abs(...), a masked value, a literal) with
no sign-dependent correction in the function is *floored* - a definite
contradiction with a truncating key.  Float detours (`int(a / b)`,
math.fmod) lose precision beyond 2**53 and are reported separately."""
import ast

from .core import (norm, walk_no_nested, attr_chain, call_name, last_name, params_of,
                   resolve_call, Module)

OPERATOR_FUNCS = {
    "add": "+", "sub": "-", "mul": "*", "floordiv": "//", "mod": "%", "truediv": "/",
    "lshift": "<<", "rshift": ">>", "and_": "&", "or_": "|", "xor": "^", "neg": "neg", "invert": "~",
    "lt": "<", "le": "<=", "eq": "==", "ne": "!=", "gt": ">", "ge": ">=", "pow": "**", "not_": "not",
    "pos": "pos", "inv": "~", "abs": "abs",
}
PY_BINOP = {ast.Add: "+", ast.Sub: "-", ast.Mult: "*", ast.FloorDiv: "//", ast.Mod: "%", ast.Div: "/",
            ast.LShift: "<<", ast.RShift: ">>", ast.BitAnd: "&", ast.BitOr: "|", ast.BitXor: "^", ast.Pow: "**"}


class Desc:
    def __init__(self, kind, op=None, node=None, wrappers=(), module=None, text=""):
        self.kind = kind          # 'operator' | 'func' | 'lambda' | 'unknown'
        self.op = op              # python operator symbol for kind == operator
        self.node = node          # FunctionDef / Lambda
        self.wrappers = list(wrappers)  # names of functions applied to the result
        self.module = module
        self.text = text

    def __repr__(self):
        w = "".join("%s(" % x for x in self.wrappers)
        base = ("operator %s" % self.op) if self.kind == "operator" else ("%s %s" % (self.kind, self.text))
        return w + base + ")" * len(self.wrappers)


def _is_operator_module(module, name):
    imp = module.imports.get(name)
    return imp is not None and imp[0] == "module" and imp[1] == "operator"


def resolve_callable(project, module, expr, depth=0):
    """Describe the callable denoted by `expr` (a table value)."""
    if depth > 6:
        return Desc("unknown", text=norm(expr))
    if isinstance(expr, ast.Attribute) and isinstance(expr.value, ast.Name) and _is_operator_module(module, expr.value.id):
        return Desc("operator", op=OPERATOR_FUNCS.get(expr.attr, expr.attr), text=norm(expr))
    if isinstance(expr, ast.Name):
        imp = module.imports.get(expr.id)
        if imp is not None and imp[0] == "name" and imp[1] == "operator":
            return Desc("operator", op=OPERATOR_FUNCS.get(imp[2], imp[2]), text=norm(expr))
    if isinstance(expr, ast.Lambda):
        # forwarding lambda:  lambda x, y: f(x, y)
        b = expr.body
        ps = [a.arg for a in expr.args.args]
        if isinstance(b, ast.Call) and [norm(a) for a in b.args] == ps and not b.keywords:
            inner = resolve_callable(project, module, b.func, depth + 1)
            if inner.kind != "unknown":
                return inner
        if isinstance(b, ast.BinOp) and type(b.op) in PY_BINOP and [norm(b.left), norm(b.right)] == ps:
            return Desc("operator", op=PY_BINOP[type(b.op)], text=norm(expr))
        return Desc("lambda", node=expr, module=module, text=norm(expr))
    if isinstance(expr, (ast.Name, ast.Attribute)):
        ch = attr_chain(expr)
        r = project.resolve_name(module, ch) if ch else None
        if isinstance(r, ast.FunctionDef):
            return Desc("func", node=r, module=r._module, text=ch)
        return Desc("unknown", text=norm(expr))
    if isinstance(expr, ast.Call):
        # wrapper(f): find what the wrapper applies around f's result
        w = resolve_callable(project, module, expr.func, depth + 1)
        if w.kind == "func" and len(expr.args) >= 1:
            wfn = w.node
            wp = params_of(wfn)
            rets = [n.value for n in walk_no_nested(wfn) if isinstance(n, ast.Return) and n.value is not None]
            if len(rets) == 1 and wp:
                r = rets[0]
                body = r.body if isinstance(r, ast.Lambda) else None
                if body is None and isinstance(r, ast.Name):
                    # def inner(...): ...; return inner
                    for n in wfn.body:
                        if isinstance(n, ast.FunctionDef) and n.name == r.id:
                            rr = [x.value for x in walk_no_nested(n) if isinstance(x, ast.Return) and x.value is not None]
                            body = rr[0] if len(rr) == 1 else None
                if body is not None:
                    wrappers = []
                    cur = body
                    found = False
                    while isinstance(cur, ast.Call):
                        if isinstance(cur.func, ast.Name) and cur.func.id == wp[0]:
                            found = True
                            break
                        wrappers.append(last_name(cur))
                        nxt = [a for a in cur.args if isinstance(a, ast.Call)]
                        if len(nxt) != 1:
                            break
                        cur = nxt[0]
                    if found:
                        inner = resolve_callable(project, module, expr.args[0], depth + 1)
                        inner.wrappers = wrappers + inner.wrappers
                        return inner
        return Desc("unknown", text=norm(expr))
    return Desc("unknown", text=norm(expr))


# ---------------------------------------------------------------------


def _nonneg(e, nonneg_names):
    """is expression e syntactically proved >= 0 ?"""
    if isinstance(e, ast.Constant):
        return isinstance(e.value, (int, float)) and e.value >= 0
    if isinstance(e, ast.Call):
        cn = call_name(e)
        if cn in ("abs", "len", "to_unsigned", "make_unsigned"):
            return True
        return False
    if isinstance(e, ast.Name):
        return e.id in nonneg_names
    if isinstance(e, ast.BinOp):
        if isinstance(e.op, ast.BitAnd):
            return _nonneg(e.left, nonneg_names) or _nonneg(e.right, nonneg_names)
        if isinstance(e.op, (ast.Add, ast.Mult, ast.FloorDiv, ast.Mod, ast.LShift, ast.RShift, ast.BitOr, ast.BitXor, ast.Pow)):
            return _nonneg(e.left, nonneg_names) and _nonneg(e.right, nonneg_names)
    return False


def _nonneg_names(fn):
    """locals that are only ever assigned non-negative expressions, and
    parameters re-assigned through abs()/to_unsigned()"""
    cand = {}
    for n in walk_no_nested(fn):
        if isinstance(n, ast.Assign) and len(n.targets) == 1 and isinstance(n.targets[0], ast.Name):
            cand.setdefault(n.targets[0].id, []).append(n.value)
        elif isinstance(n, ast.AugAssign) and isinstance(n.target, ast.Name):
            cand.setdefault(n.target.id, []).append(None)
    names = set()
    changed = True
    params = set(params_of(fn)) if isinstance(fn, ast.FunctionDef) else set()
    while changed:
        changed = False
        for k, vals in cand.items():
            if k in names or k in params:
                continue
            if all(v is not None and _nonneg(v, names) for v in vals):
                names.add(k)
                changed = True
    return names


def _sign_tests(fn):
    """Compare nodes against 0 with an ordering operator (sign tests)"""
    out = []
    body = fn.body if isinstance(fn, ast.Lambda) else fn
    for n in (ast.walk(body) if isinstance(fn, ast.Lambda) else walk_no_nested(fn)):
        if isinstance(n, ast.Compare) and len(n.ops) == 1 and isinstance(n.ops[0], (ast.Lt, ast.Gt, ast.LtE, ast.GtE)):
            l, r = n.left, n.comparators[0]
            if (isinstance(r, ast.Constant) and r.value == 0) or (isinstance(l, ast.Constant) and l.value == 0):
                out.append(n)
    return out


def div_verdict(project, desc, kind, depth=0):
    """kind: 'div' or 'rem'.  Returns (verdict, explanation); verdict in
    'trunc' (accepted), 'floor', 'float', 'wrong-sign', 'undecided'."""
    if desc.kind == "operator":
        if desc.op in ("//", "%"):
            return "floor", "Python `%s` floors; equals truncation only for non-negative operands" % desc.op
        if desc.op == "/":
            return "float", "true division yields a float"
        return "undecided", "operator %s is not a division" % desc.op
    if desc.kind not in ("func", "lambda") or depth > 4:
        return "undecided", "callable not resolved: %s" % desc.text
    fn = desc.node
    walker = ast.walk(fn.body) if isinstance(fn, ast.Lambda) else walk_no_nested(fn)
    nodes = list(walker)
    nn = _nonneg_names(fn) if isinstance(fn, ast.FunctionDef) else set()
    floored, floats, helpers = [], [], []
    for n in nodes:
        if isinstance(n, ast.BinOp) and isinstance(n.op, (ast.FloorDiv, ast.Mod)):
            if isinstance(n.left, ast.Constant) and isinstance(n.left.value, str):
                continue
            if isinstance(n.op, ast.Mod) and isinstance(n.right, (ast.Constant,)) is False and _is_pow2_mod(n):
                continue
            floored.append(n)
        elif isinstance(n, ast.AugAssign) and isinstance(n.op, (ast.FloorDiv, ast.Mod)):
            floored.append(n)
        elif isinstance(n, ast.BinOp) and isinstance(n.op, ast.Div):
            floats.append(n)
        elif isinstance(n, ast.Call):
            cn = call_name(n) or ""
            if cn == "divmod" or cn.endswith("operator.floordiv") or cn.endswith("operator.mod"):
                floored.append(n)
            elif cn in ("math.fmod", "math.remainder", "fmod"):
                floats.append(n)
            elif cn not in ("abs", "int", "bool", "float", "math.trunc", "trunc", "to_signed", "to_unsigned", "make_int", "make_unsigned"):
                callee = None
                if isinstance(fn, ast.FunctionDef):
                    callee = resolve_call(project, fn, n)
                elif desc.module is not None and attr_chain(n.func):
                    r = project.resolve_name(desc.module, attr_chain(n.func))
                    callee = r if isinstance(r, ast.FunctionDef) else None
                if callee is not None:
                    helpers.append(callee)
    signs = _sign_tests(fn)
    uses_abs = any(isinstance(n, ast.Call) and call_name(n) == "abs" for n in nodes)
    if floats and not floored:
        return "float", "goes through float division (%s): exact only below 2**53" % norm(floats[0])
    if floored:
        raw = []
        for n in floored:
            if isinstance(n, ast.BinOp):
                if not (_nonneg(n.left, nn) and _nonneg(n.right, nn)):
                    raw.append(n)
            elif isinstance(n, ast.AugAssign):
                if not (n.target.id in nn if isinstance(n.target, ast.Name) else False) or not _nonneg(n.value, nn):
                    raw.append(n)
            else:
                raw.append(n)
        if raw and not signs:
            return "floor", "`%s` on operands not proved non-negative and no sign correction in %s" % (norm(raw[0]), desc.text)
        if not signs and not raw:
            # abs()//abs() without re-applying the sign: magnitude only
            return "wrong-sign", "operates on magnitudes but never re-applies a sign"
        # which parameters decide the sign?
        ps = params_of(fn) if isinstance(fn, ast.FunctionDef) else [a.arg for a in fn.args.args]
        ps = [p for p in ps if p not in ("self", "ty", "bits")]
        mentioned = set()
        for s in signs:
            for x in ast.walk(s):
                if isinstance(x, ast.Name):
                    mentioned.add(x.id)
        if len(ps) >= 2:
            a, b = ps[0], ps[1]
            if kind == "rem":
                if a in mentioned and b not in mentioned:
                    return "trunc", "remainder of magnitudes, sign taken from the dividend"
                if raw and a in mentioned and b in mentioned:
                    return "trunc", "floored op with a sign correction involving both operands"
                return "wrong-sign", "remainder sign is decided by %s (must be the dividend `%s` alone)" % (sorted(mentioned & set(ps)), a)
            if kind == "div":
                if a in mentioned and b in mentioned:
                    return "trunc", "quotient of magnitudes, negative iff operand signs differ"
                return "wrong-sign", "quotient sign is decided by %s (must involve both operands)" % sorted(mentioned & set(ps))
        return "undecided", "sign handling present but parameters not identified"
    for h in helpers:
        hd = Desc("func", node=h, module=h._module, text=h.name)
        v, why = div_verdict(project, hd, "div" if "div" in h.name or kind == "div" else kind, depth + 1)
        if v != "undecided":
            return v, "via %s: %s" % (h.name, why)
    return "undecided", "no division found in %s" % desc.text


def _is_pow2_mod(n):
    return False


def python_ops_used(desc):
    """set of python operator symbols applied in a func/lambda body"""
    if desc.kind == "operator":
        return {desc.op}
    if desc.kind in ("func", "lambda"):
        out = set()
        for n in ast.walk(desc.node):
            if isinstance(n, ast.BinOp) and type(n.op) in PY_BINOP:
                out.add(PY_BINOP[type(n.op)])
            elif isinstance(n, ast.Compare):
                for o in n.ops:
                    out.add({ast.Lt: "<", ast.Gt: ">", ast.LtE: "<=", ast.GtE: ">=", ast.Eq: "==", ast.NotEq: "!="}.get(type(o), "?"))
            elif isinstance(n, ast.BoolOp):
                out.add("and" if isinstance(n.op, ast.And) else "or")
            elif isinstance(n, ast.UnaryOp):
                out.add({ast.USub: "neg", ast.Invert: "~", ast.Not: "not", ast.UAdd: "pos"}[type(n.op)])
        return out
    return set()
