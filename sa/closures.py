"""Late-binding closures: a function or lambda defined inside a loop that reads a variable the loop re-binds
(the loop target or a name assigned in the loop body) sees the value of the LAST iteration when it is called
after the loop - unless the value is frozen through a default argument or a factory call.  A closure that is
consumed within the iteration (key=/map/filter/sorted/any/all/min/max/next, or called on the spot) is fine."""
import ast

from .core import norm

IMMEDIATE = {"sorted", "map", "filter", "any", "all", "min", "max", "next", "sum", "list", "tuple", "set", "dict", "reduce", "takewhile", "dropwhile", "groupby"}


def _bound_in_loop(loop):
    names = set()
    tgt = [loop.target] if isinstance(loop, (ast.For, ast.AsyncFor)) else []
    for t in tgt:
        for n in ast.walk(t):
            if isinstance(n, ast.Name):
                names.add(n.id)
    for st in loop.body:
        for n in ast.walk(st):
            if isinstance(n, (ast.FunctionDef, ast.Lambda, ast.ClassDef)):
                continue
            if isinstance(n, ast.Name) and isinstance(n.ctx, ast.Store):
                names.add(n.id)
    # names stored inside nested function bodies are locals of those functions, not of the loop
    return names


def _free_reads(fn):
    """names read in fn's body that are not its parameters or locals"""
    a = fn.args
    params = {p.arg for p in a.posonlyargs + a.args + a.kwonlyargs}
    if a.vararg:
        params.add(a.vararg.arg)
    if a.kwarg:
        params.add(a.kwarg.arg)
    body = fn.body if isinstance(fn.body, list) else [fn.body]
    stores = set()
    for st in body:
        for n in ast.walk(st):
            if isinstance(n, ast.Name) and isinstance(n.ctx, ast.Store):
                stores.add(n.id)
            elif isinstance(n, (ast.FunctionDef, ast.ClassDef)):
                stores.add(n.name)
            elif isinstance(n, ast.comprehension):
                for x in ast.walk(n.target):
                    if isinstance(x, ast.Name):
                        stores.add(x.id)
    reads = set()
    for st in body:
        for n in ast.walk(st):
            if isinstance(n, ast.Name) and isinstance(n.ctx, ast.Load) and n.id not in params and n.id not in stores:
                reads.add(n.id)
    return reads


def _consumed_now(fn_node):
    """is the closure only used within the iteration (argument of an immediate consumer, or called directly)"""
    p = getattr(fn_node, "_parent", None)
    if isinstance(p, ast.keyword):
        p = getattr(p, "_parent", None)
    if isinstance(p, ast.Call):
        name = norm(p.func).split(".")[-1]
        if p.func is fn_node:
            return True
        if name in IMMEDIATE or name in ("sort",):
            return True
    return False


def late_binding(tree):
    """[(closure node, loop node, sorted captured loop names)]"""
    out = []
    for loop in ast.walk(tree):
        if not isinstance(loop, (ast.For, ast.AsyncFor, ast.While)):
            continue
        bound = _bound_in_loop(loop)
        if not bound:
            continue
        for st in loop.body:
            for n in ast.walk(st):
                if isinstance(n, (ast.FunctionDef, ast.Lambda)):
                    # innermost enclosing loop only
                    anc, inner = getattr(n, "_parent", None), None
                    while anc is not None and anc is not loop:
                        if isinstance(anc, (ast.For, ast.AsyncFor, ast.While)):
                            inner = anc
                        if isinstance(anc, (ast.FunctionDef, ast.Lambda)):
                            inner = anc   # nested in another function defined in the loop: that one is reported
                            break
                        anc = getattr(anc, "_parent", None)
                    if inner is not None:
                        continue
                    cap = _free_reads(n) & bound
                    if not cap:
                        continue
                    if isinstance(n, ast.Lambda) and _consumed_now(n):
                        continue
                    if isinstance(n, ast.FunctionDef):
                        # a def used only as an immediately called helper in the same iteration
                        uses = [x for s in loop.body for x in ast.walk(s) if isinstance(x, ast.Name) and x.id == n.name and isinstance(x.ctx, ast.Load)]
                        if uses and all(isinstance(getattr(u, "_parent", None), ast.Call) and u._parent.func is u for u in uses):
                            continue
                    out.append((n, loop, sorted(cap)))
    return out
