"""Order-sensitive consumption of builtin sets.

A builtin `set` of objects without a value-based __hash__ iterates in an
order that depends on object addresses (and, for str keys, on
PYTHONHASHSEED).  This module infers which names/attributes hold builtin sets
(class-aware for `self.X`; by attribute name for other receivers when every
class that assigns the attribute agrees) and finds the places where the
iteration order can reach an output: an arbitrary pick, or a loop / sequence
construction whose body creates ordered things."""
import ast

from .core import norm, walk_no_nested, last_name, call_name

SET_CTORS = {"set", "frozenset"}
ORDERED_CTORS = {"OrderedSet", "list", "sorted", "tuple", "OrderedDict", "dict", "_ordered"}
ORDER_EFFECTS = {"append", "insert", "extend", "add_node", "add_edge", "get_node", "new_reg", "emit", "insert_instruction",
                 "add_instruction", "insert_code_before", "insert_code_after", "new_block", "write", "add_symbol", "add_section",
                 "emit_all", "add_relocation", "new_vreg", "alloc"}


def is_set_expr(e, setnames):
    """is expression e a builtin set, given names known to be sets"""
    if isinstance(e, (ast.Set, ast.SetComp)):
        return True
    if isinstance(e, ast.Call):
        cn = call_name(e)
        if cn in SET_CTORS:
            return True
        if cn == "set.union" or cn == "set.intersection":
            return True
        if isinstance(e.func, ast.Attribute) and e.func.attr in ("copy", "union", "intersection", "difference", "symmetric_difference") and is_set_expr(e.func.value, setnames):
            return True
        return False
    if isinstance(e, ast.BinOp) and isinstance(e.op, (ast.BitOr, ast.BitAnd, ast.Sub, ast.BitXor)):
        return is_set_expr(e.left, setnames) and (is_set_expr(e.right, setnames) or isinstance(e.right, (ast.Set, ast.Name, ast.Attribute, ast.Call)))
    if isinstance(e, (ast.Name, ast.Attribute)):
        return norm(e) in setnames
    if isinstance(e, ast.Subscript):
        return ("[]" + norm(e.value)) in setnames
    return False


def is_dict_of_sets(e):
    if isinstance(e, ast.Call) and call_name(e) in ("defaultdict", "collections.defaultdict") and e.args and norm(e.args[0]) in SET_CTORS:
        return True
    if isinstance(e, ast.DictComp) and is_set_expr(e.value, set()):
        return True
    return False


def class_set_attrs(project):
    """{class name: {attr: 'set'|'ordered'|'mixed'}} from `self.X = <ctor>` in any method;
    and {attr: verdict over all classes} for receivers other than self"""
    per_class = {}
    for cdef in project.classes.values():
        d = per_class.setdefault(cdef.name, {})
        for m in cdef.body:
            if not isinstance(m, ast.FunctionDef):
                continue
            for n in walk_no_nested(m):
                if isinstance(n, ast.Assign):
                    for t in n.targets:
                        if isinstance(t, ast.Attribute) and isinstance(t.value, ast.Name) and t.value.id == "self":
                            kind = None
                            if is_set_expr(n.value, set()):
                                kind = "set"
                            elif is_dict_of_sets(n.value):
                                kind = "dictofset"
                            elif isinstance(n.value, ast.Call) and (last_name(n.value) in ORDERED_CTORS) or isinstance(n.value, (ast.List, ast.ListComp, ast.Dict, ast.Tuple)):
                                kind = "ordered"
                            if kind:
                                d[t.attr] = kind if d.get(t.attr, kind) in (kind, "ordered" if kind == "dictofset" else kind) else "mixed"
                        elif (isinstance(t, ast.Subscript) and isinstance(t.value, ast.Attribute) and isinstance(t.value.value, ast.Name)
                              and t.value.value.id == "self" and is_set_expr(n.value, set())):
                            d[t.value.attr] = "dictofset"
    by_attr = {}
    for cname, d in per_class.items():
        for a, k in d.items():
            by_attr.setdefault(a, set()).add(k)
    return per_class, by_attr


def function_set_names(project, fn, per_class, by_attr):
    """names (normalised text) that denote builtin sets inside fn"""
    names = set()
    cls = None
    p = getattr(fn, "_parent", None)
    while p is not None:
        if isinstance(p, ast.ClassDef):
            cls = p
            break
        p = getattr(p, "_parent", None)
    if cls is not None:
        for b in project.mro(cls):
            for a, k in per_class.get(b.name, {}).items():
                if k == "set":
                    names.add("self." + a)
                elif k == "dictofset":
                    names.add("[]self." + a)
    changed = True
    assigns = [n for n in walk_no_nested(fn) if isinstance(n, ast.Assign) and len(n.targets) == 1 and isinstance(n.targets[0], ast.Name)]
    bad = set()
    while changed:
        changed = False
        for n in assigns:
            nm = n.targets[0].id
            if is_set_expr(n.value, names):
                if nm not in names and nm not in bad:
                    names.add(nm)
                    changed = True
            else:
                if nm in names:
                    names.discard(nm)
                bad.add(nm)
    # attributes of other receivers: x.attr where every class that assigns attr makes it a set
    for n in ast.walk(fn):
        if isinstance(n, ast.Attribute) and not (isinstance(n.value, ast.Name) and n.value.id == "self"):
            if by_attr.get(n.attr) == {"set"}:
                names.add(norm(n))
            elif by_attr.get(n.attr) == {"dictofset"}:
                names.add("[]" + norm(n))
    return names


def sinks(project, fn, per_class, by_attr):
    """yield (kind, node, text)"""
    names = function_set_names(project, fn, per_class, by_attr)
    for n in walk_no_nested(fn):
        if isinstance(n, ast.Call):
            if isinstance(n.func, ast.Attribute) and n.func.attr == "pop" and not n.args and is_set_expr(n.func.value, names):
                yield "pick", n, norm(n)
            elif call_name(n) == "next" and n.args and isinstance(n.args[0], ast.Call) and call_name(n.args[0]) == "iter" and n.args[0].args and is_set_expr(n.args[0].args[0], names):
                yield "pick", n, norm(n)
            elif (call_name(n) in ("dict.fromkeys", "OrderedDict.fromkeys", "fromkeys") or (isinstance(n.func, ast.Attribute) and n.func.attr in ("fromkeys", "join"))) and n.args and is_set_expr(n.args[0], names):
                # a dict (insertion ordered) or a string built from a set keeps the set's iteration order
                yield "sequence", n, norm(n)
            elif call_name(n) in ("list", "tuple") and len(n.args) == 1 and is_set_expr(n.args[0], names):
                par = n._parent
                # list(S) only as a snapshot to iterate while mutating is judged at the loop
                if isinstance(par, ast.For) and par.iter is n:
                    continue
                yield "sequence", n, norm(n)
        elif isinstance(n, ast.For):
            it = n.iter
            if isinstance(it, ast.Call) and call_name(it) in ("list", "tuple") and len(it.args) == 1:
                it = it.args[0]
            if is_set_expr(it, names):
                eff = None
                for b in n.body:
                    for x in ast.walk(b):
                        if isinstance(x, ast.Call) and last_name(x) in ORDER_EFFECTS:
                            eff = x
                            break
                        if isinstance(x, (ast.Yield, ast.YieldFrom)):
                            eff = x
                            break
                    if eff is not None:
                        break
                if eff is not None:
                    yield "loop", n, "for %s in %s: … %s" % (norm(n.target), norm(n.iter), norm(eff)[:50])
        elif isinstance(n, (ast.ListComp, ast.DictComp)):
            g = n.generators[0]
            if is_set_expr(g.iter, names):
                yield "sequence", n, norm(n)[:80]
