"""Interval extraction for range-gate helpers (inrange, wrap_negative,
isinsrange, Token.__setitem__): which closed interval [lo, hi] of the value
parameter does the function accept?  Bounds are normalised to
sign * 2**exp + off with exp an affine form in the width parameter."""
import ast

from .core import norm, walk_no_nested, call_name, compare_ops
from . import sym


class Bound:
    def __init__(self, sign, exp, off):
        self.sign, self.exp, self.off = sign, exp, off

    def __eq__(self, o):
        return isinstance(o, Bound) and (self.sign, self.exp, self.off) == (o.sign, o.exp, o.off)

    def shift(self, d):
        return Bound(self.sign, self.exp, self.off + d)

    def __repr__(self):
        s = "%s2**(%r)" % ("-" if self.sign < 0 else "", self.exp)
        return s if not self.off else "%s%+d" % (s, self.off)


def bound_of(e, env, depth=0):
    """Bound for expression e (locals inlined through env) or None"""
    if depth > 8:
        return None
    e = sym.inline(e, env)
    p = sym.pow2_exp(e, env)
    if p is not None and not (isinstance(e, ast.Constant)):
        return Bound(1, p, 0)
    if isinstance(e, ast.UnaryOp) and isinstance(e.op, ast.USub):
        b = bound_of(e.operand, env, depth + 1)
        return None if b is None else Bound(-b.sign, b.exp, -b.off)
    if isinstance(e, ast.BinOp) and isinstance(e.op, (ast.Add, ast.Sub)) and isinstance(e.right, ast.Constant) and isinstance(e.right.value, int):
        b = bound_of(e.left, env, depth + 1)
        d = e.right.value if isinstance(e.op, ast.Add) else -e.right.value
        return None if b is None else b.shift(d)
    return None


def accept_interval(fn, vname):
    """(lo Bound, hi Bound, how) such that fn accepts exactly lo <= v <= hi,
    from the first recognised membership / comparison on `vname`."""
    env = sym.single_assign_env(fn)
    for n in walk_no_nested(fn):
        if isinstance(n, ast.Compare) and len(n.ops) == 1 and isinstance(n.ops[0], (ast.In, ast.NotIn)) and norm(n.left) == vname:
            r = n.comparators[0]
            if isinstance(r, ast.Call) and call_name(r) == "range" and len(r.args) == 2:
                lo, hi = bound_of(r.args[0], env), bound_of(r.args[1], env)
                if lo and hi:
                    return lo, hi.shift(-1), norm(n)
    # chained / conjunctive comparisons
    lo = hi = None
    src = []
    for n in walk_no_nested(fn):
        if isinstance(n, ast.Compare):
            left = n.left
            for op, right in zip(n.ops, n.comparators):
                for a, o, b in ((left, op, right),):
                    A, B = norm(a), norm(b)
                    if A == vname:
                        bb = bound_of(b, env)
                        if bb is not None:
                            if isinstance(o, ast.LtE):
                                hi = bb
                            elif isinstance(o, ast.Lt):
                                hi = bb.shift(-1)
                            elif isinstance(o, ast.GtE):
                                lo = bb
                            elif isinstance(o, ast.Gt):
                                lo = bb.shift(1)
                            src.append(norm(n))
                    elif B == vname:
                        ba = bound_of(a, env)
                        if ba is not None:
                            if isinstance(o, ast.LtE):
                                lo = ba
                            elif isinstance(o, ast.Lt):
                                lo = ba.shift(1)
                            elif isinstance(o, ast.GtE):
                                hi = ba
                            elif isinstance(o, ast.Gt):
                                hi = ba.shift(-1)
                            src.append(norm(n))
                left = right
    if lo is not None and hi is not None:
        return lo, hi, " / ".join(sorted(set(src)))
    return None


def signed_interval(bits):
    one = sym.const(1)
    return Bound(-1, bits - one, 0), Bound(1, bits - one, -1)


def unsigned_interval(bits):
    return None, Bound(1, bits, -1)
