"""Small symbolic layer: affine forms over program names and recognition of
the power-of-two shapes bit-twiddling code is made of.  Purely syntactic
normalisation - nothing is executed and no solver is consulted."""
import ast

from .core import norm, walk_no_nested, attr_chain


class Aff:
    """sum(coef * atom) + const, atoms are strings"""

    def __init__(self, terms=None, const=0):
        self.terms = {k: v for k, v in (terms or {}).items() if v != 0}
        self.const = const

    def __add__(self, o):
        t = dict(self.terms)
        for k, v in o.terms.items():
            t[k] = t.get(k, 0) + v
        return Aff(t, self.const + o.const)

    def __neg__(self):
        return Aff({k: -v for k, v in self.terms.items()}, -self.const)

    def __sub__(self, o):
        return self + (-o)

    def scale(self, c):
        return Aff({k: v * c for k, v in self.terms.items()}, self.const * c)

    def is_const(self):
        return not self.terms

    def __eq__(self, o):
        return isinstance(o, Aff) and self.terms == o.terms and self.const == o.const

    def __hash__(self):
        return hash((tuple(sorted(self.terms.items())), self.const))

    def __repr__(self):
        parts = []
        for k, v in sorted(self.terms.items()):
            parts.append(("%s" % k) if v == 1 else ("%d*%s" % (v, k)))
        if self.const or not parts:
            parts.append(str(self.const))
        return " + ".join(parts)


def const(c):
    return Aff({}, c)


def atom(name):
    return Aff({name: 1}, 0)


def single_assign_env(fn):
    """local name -> value expr for names assigned exactly once in fn by a
    plain assignment that does not mention the name itself (so the binding is
    loop-invariant), and never augmented-assigned or used as a loop target."""
    count, val = {}, {}
    for n in walk_no_nested(fn):
        if isinstance(n, ast.Assign):
            for t in n.targets:
                for e in ast.walk(t):
                    if isinstance(e, ast.Name):
                        count[e.id] = count.get(e.id, 0) + 1
                        if isinstance(t, ast.Name):
                            val[e.id] = n.value
                        elif isinstance(t, ast.Tuple) and isinstance(n.value, ast.Tuple) and len(t.elts) == len(n.value.elts) and e in t.elts:
                            val[e.id] = n.value.elts[t.elts.index(e)]
                        else:
                            val[e.id] = None
        elif isinstance(n, ast.AnnAssign) and isinstance(n.target, ast.Name):
            count[n.target.id] = count.get(n.target.id, 0) + 1
            val[n.target.id] = n.value
        elif isinstance(n, ast.AugAssign):
            for e in ast.walk(n.target):
                if isinstance(e, ast.Name):
                    count[e.id] = count.get(e.id, 0) + 2
        elif isinstance(n, (ast.For, ast.comprehension)):
            for e in ast.walk(n.target):
                if isinstance(e, ast.Name):
                    count[e.id] = count.get(e.id, 0) + 2
        elif isinstance(n, ast.NamedExpr):
            count[n.target.id] = count.get(n.target.id, 0) + 2
    if isinstance(fn, (ast.FunctionDef, ast.AsyncFunctionDef)):
        a = fn.args
        for p in a.posonlyargs + a.args + a.kwonlyargs:
            if p.arg in count:
                count[p.arg] += 1  # parameter re-assigned: not single
    env = {}
    for k, c in count.items():
        v = val.get(k)
        if c == 1 and v is not None:
            if k not in {x.id for x in ast.walk(v) if isinstance(x, ast.Name)}:
                env[k] = v
    return env


def affine(e, env=None, depth=0):
    """Aff for expression e, or None when it is not affine.  Names bound in
    env are inlined.  Opaque sub-expressions (attribute chains, calls) become
    atoms keyed by their normalised text."""
    env = env or {}
    if depth > 20:
        return None
    if isinstance(e, ast.Constant):
        if isinstance(e.value, bool) or not isinstance(e.value, int):
            return None
        return const(e.value)
    if isinstance(e, ast.Name):
        if e.id in env:
            r = affine(env[e.id], env, depth + 1)
            if r is not None:
                return r
        return atom(e.id)
    if isinstance(e, ast.Attribute):
        ch = attr_chain(e)
        return atom(ch) if ch else atom(norm(e))
    if isinstance(e, ast.UnaryOp):
        v = affine(e.operand, env, depth + 1)
        if v is None:
            return None
        if isinstance(e.op, ast.USub):
            return -v
        if isinstance(e.op, ast.UAdd):
            return v
        return None
    if isinstance(e, ast.BinOp):
        a, b = affine(e.left, env, depth + 1), affine(e.right, env, depth + 1)
        if isinstance(e.op, (ast.Add, ast.Sub)):
            if a is None or b is None:
                return None
            return a + b if isinstance(e.op, ast.Add) else a - b
        if isinstance(e.op, ast.Mult):
            if a is not None and b is not None:
                if a.is_const():
                    return b.scale(a.const)
                if b.is_const():
                    return a.scale(b.const)
            return None
        if isinstance(e.op, ast.LShift) and a is not None and b is not None and b.is_const() and 0 <= b.const < 256:
            return a.scale(1 << b.const)
        if a is not None and b is not None and a.is_const() and b.is_const():
            try:
                return const(eval(compile(ast.Expression(ast.BinOp(ast.Constant(a.const), e.op, ast.Constant(b.const))), "<c>", "eval")))  # constant folding of two literals only
            except Exception:
                return None
        return atom(norm(e)) if _opaque_ok(e) else None
    if isinstance(e, (ast.Call, ast.Subscript)):
        return atom(norm(e))
    return None


def _opaque_ok(e):
    return False


def pow2_exp(e, env=None):
    """exponent Aff if e is 2**x or 1<<x (after inlining), else None"""
    env = env or {}
    e = _inline(e, env)
    if isinstance(e, ast.BinOp):
        if isinstance(e.op, ast.LShift) and isinstance(e.left, ast.Constant) and e.left.value == 1:
            return affine(e.right, env)
        if isinstance(e.op, ast.Pow) and isinstance(e.left, ast.Constant) and e.left.value == 2:
            return affine(e.right, env)
        if isinstance(e.op, ast.LShift) and isinstance(e.left, ast.Constant) and isinstance(e.left.value, int) and e.left.value > 0 and e.left.value & (e.left.value - 1) == 0:
            r = affine(e.right, env)
            return None if r is None else r + const(e.left.value.bit_length() - 1)
        # (2**a) << b  and  (2**a) * 2**b
        if isinstance(e.op, ast.LShift):
            l = pow2_exp(e.left, env)
            r = affine(e.right, env)
            if l is not None and r is not None:
                return l + r
        if isinstance(e.op, ast.Mult):
            l, r = pow2_exp(e.left, env), pow2_exp(e.right, env)
            if l is not None and r is not None:
                return l + r
    if isinstance(e, ast.Constant) and isinstance(e.value, int) and not isinstance(e.value, bool):
        v = e.value
        if v > 0 and v & (v - 1) == 0:
            return const(v.bit_length() - 1)
    return None


def mask_width(e, env=None):
    """width Aff if e is (1<<w)-1 / 2**w-1 / 0xFF.., else None"""
    env = env or {}
    e = _inline(e, env)
    if isinstance(e, ast.BinOp) and isinstance(e.op, ast.Sub):
        if isinstance(e.right, ast.Constant) and e.right.value == 1:
            return pow2_exp(e.left, env)
    if isinstance(e, ast.Constant) and isinstance(e.value, int) and not isinstance(e.value, bool):
        v = e.value
        if v > 0 and v & (v + 1) == 0:
            return const(v.bit_length())
    return None


def _inline(e, env, depth=0):
    while isinstance(e, ast.Name) and e.id in env and depth < 10:
        e = env[e.id]
        depth += 1
    return e


def inline(e, env):
    return _inline(e, env)


def flatten(e, opcls):
    """operands of a left/right nested chain of the same binary operator"""
    if isinstance(e, ast.BinOp) and isinstance(e.op, opcls):
        return flatten(e.left, opcls) + flatten(e.right, opcls)
    return [e]


def trip_count(loop, fn, env=None):
    """Number of iterations of a counting loop as an Aff, or None.
    for x in range(E) / range(A, B) [reversed(...)];
    while v <cmp> K with v initialised once before the loop and stepped by
    +-1 exactly once in the body (and no break)."""
    env = env if env is not None else single_assign_env(fn)
    if isinstance(loop, ast.For):
        it = loop.iter
        if isinstance(it, ast.Call) and attr_chain(it.func) == "reversed" and len(it.args) == 1:
            it = it.args[0]
        if isinstance(it, ast.Call) and attr_chain(it.func) == "range":
            a = [affine(x, env) for x in it.args]
            if any(x is None for x in a):
                return None
            if len(a) == 1:
                return a[0]
            if len(a) == 2:
                return a[1] - a[0]
        return None
    if isinstance(loop, ast.While):
        tests = flatten_bool(loop.test)
        for t in tests:
            if not (isinstance(t, ast.Compare) and len(t.ops) == 1):
                continue
            l, op, r = t.left, t.ops[0], t.comparators[0]
            for var, bound, o in ((l, r, op), (r, l, _flip(op))):
                if not isinstance(var, ast.Name):
                    continue
                step = _step_of(loop, var.id)
                init = _init_before(fn, loop, var.id)
                b = affine(bound, env)
                if step is None or init is None or b is None:
                    continue
                i = affine(init, env)
                if i is None:
                    continue
                if step == -1 and isinstance(o, ast.Gt):
                    return i - b
                if step == -1 and isinstance(o, ast.GtE):
                    return i - b + const(1)
                if step == 1 and isinstance(o, ast.Lt):
                    return b - i
                if step == 1 and isinstance(o, ast.LtE):
                    return b - i + const(1)
                if step == -1 and isinstance(o, ast.NotEq):
                    return i - b
                if step == 1 and isinstance(o, ast.NotEq):
                    return b - i
        return None
    return None


def flatten_bool(t):
    if isinstance(t, ast.BoolOp) and isinstance(t.op, ast.And):
        out = []
        for v in t.values:
            out += flatten_bool(v)
        return out
    return [t]


def _flip(op):
    return {ast.Lt: ast.Gt, ast.Gt: ast.Lt, ast.LtE: ast.GtE, ast.GtE: ast.LtE}.get(type(op), type(op))()


def _step_of(loop, name):
    steps = []
    for n in walk_no_nested(loop):
        if isinstance(n, ast.AugAssign) and isinstance(n.target, ast.Name) and n.target.id == name:
            if isinstance(n.value, ast.Constant) and isinstance(n.value.value, int):
                if isinstance(n.op, ast.Add):
                    steps.append(n.value.value)
                elif isinstance(n.op, ast.Sub):
                    steps.append(-n.value.value)
                else:
                    return None
            else:
                return None
        elif isinstance(n, ast.Assign) and any(isinstance(t, ast.Name) and t.id == name for t in n.targets):
            v = n.value
            if isinstance(v, ast.BinOp) and isinstance(v.left, ast.Name) and v.left.id == name and isinstance(v.right, ast.Constant):
                if isinstance(v.op, ast.Add):
                    steps.append(v.right.value)
                elif isinstance(v.op, ast.Sub):
                    steps.append(-v.right.value)
                else:
                    return None
            else:
                return None
    if len(steps) == 1 and steps[0] in (1, -1):
        return steps[0]
    return None


def _init_before(fn, loop, name):
    """the single assignment to name that precedes loop in the same body"""
    parent = getattr(loop, "_parent", None)
    body = None
    for field in ("body", "orelse", "finalbody"):
        b = getattr(parent, field, None)
        if isinstance(b, list) and loop in b:
            body = b
    if body is None:
        return None
    init = None
    for st in body[: body.index(loop)]:
        if isinstance(st, ast.Assign) and any(isinstance(t, ast.Name) and t.id == name for t in st.targets):
            init = st.value
        elif isinstance(st, ast.AnnAssign) and isinstance(st.target, ast.Name) and st.target.id == name:
            init = st.value
        elif any(isinstance(x, ast.Name) and x.id == name and isinstance(x.ctx, ast.Store) for x in ast.walk(st)):
            return None
    return init


def copy_ast(node):
    """structural copy of an AST (fields and positions only).  copy.deepcopy would follow the `_parent` links the
    loader puts on every node and copy the whole module for each expression."""
    if isinstance(node, list):
        return [copy_ast(x) for x in node]
    if not isinstance(node, ast.AST):
        return node
    new = type(node)()
    for f in node._fields:
        if hasattr(node, f):
            setattr(new, f, copy_ast(getattr(node, f)))
    for a in node._attributes:
        if hasattr(node, a):
            setattr(new, a, getattr(node, a))
    return new


class _Subst(ast.NodeTransformer):
    def __init__(self, env):
        self.env = env
        self.depth = 0

    def visit_Name(self, node):
        if isinstance(node.ctx, ast.Load) and node.id in self.env and self.depth < 8:
            self.depth += 1
            try:
                return self.visit(copy_ast(self.env[node.id]))
            finally:
                self.depth -= 1
        return node


def deep_inline(e, env):
    """copy of expression e with every single-assigned local name replaced by
    its defining expression (recursively); the original tree is untouched"""
    return ast.fix_missing_locations(_Subst(env).visit(copy_ast(e)))


def conjuncts(node, fn, env=None):
    """all conditions known true at `node`: enclosing if/while tests (with
    polarity), `and` chains flattened, locals inlined.  Returns list of
    (expr, polarity)."""
    from .flow import controlling
    env = single_assign_env(fn) if env is None else env
    out = []
    tests = list(controlling(node, stop=fn))
    # early exits: `if T: continue/return/raise/break` earlier in an enclosing statement list => not T
    child, p = node, getattr(node, "_parent", None)
    while p is not None and child is not fn:
        for field in ("body", "orelse", "finalbody"):
            lst = getattr(p, field, None)
            if isinstance(lst, list) and child in lst:
                for st in lst[: lst.index(child)]:
                    if isinstance(st, ast.If) and not st.orelse and st.body and isinstance(st.body[-1], (ast.Continue, ast.Return, ast.Raise, ast.Break)):
                        tests.append((st.test, False, st))
        child, p = p, getattr(p, "_parent", None)
    for test, pol, _ in tests:
        t = deep_inline(test, env)
        if pol is True:
            for c in flatten_bool(t):
                while isinstance(c, ast.UnaryOp) and isinstance(c.op, ast.Not):
                    c = c.operand
                    out.append((c, False))
                    break
                else:
                    out.append((c, True))
        else:
            for c in (t.values if isinstance(t, ast.BoolOp) and isinstance(t.op, ast.Or) else [t]):
                neg = _negate(c)
                if neg is not None:
                    out.append((neg, True))
                else:
                    out.append((c, False))
    return out


def _negate(c):
    """positive form of `not c` for comparisons and `not x`"""
    if isinstance(c, ast.UnaryOp) and isinstance(c.op, ast.Not):
        return c.operand
    if isinstance(c, ast.Compare) and len(c.ops) == 1:
        inv = {ast.Lt: ast.GtE, ast.LtE: ast.Gt, ast.Gt: ast.LtE, ast.GtE: ast.Lt, ast.Eq: ast.NotEq, ast.NotEq: ast.Eq,
               ast.Is: ast.IsNot, ast.IsNot: ast.Is, ast.In: ast.NotIn, ast.NotIn: ast.In}.get(type(c.ops[0]))
        if inv is not None:
            return ast.fix_missing_locations(ast.Compare(left=c.left, ops=[inv()], comparators=c.comparators))
    return None


def nearest_def(node, name):
    """value of the closest preceding `name = value` in the statement list that contains node (or an
    enclosing one), or None"""
    child, p = node, getattr(node, "_parent", None)
    while p is not None:
        for field in ("body", "orelse", "finalbody"):
            lst = getattr(p, field, None)
            if isinstance(lst, list) and child in lst:
                for st in reversed(lst[: lst.index(child)]):
                    if isinstance(st, ast.Assign) and len(st.targets) == 1:
                        t = st.targets[0]
                        if isinstance(t, ast.Name) and t.id == name:
                            return st.value
                        if isinstance(t, ast.Tuple) and isinstance(st.value, ast.Tuple) and len(t.elts) == len(st.value.elts):
                            for a, b in zip(t.elts, st.value.elts):
                                if isinstance(a, ast.Name) and a.id == name:
                                    return b
        if isinstance(p, (ast.FunctionDef, ast.Lambda)):
            return None
        child, p = p, getattr(p, "_parent", None)
    return None
